import shim  # noqa: F401  (must be first)
import os
import shutil
import sys
import tempfile

from metador_core.container import MetadorContainer
from metador_core.ih5.container import IH5Record
from metador_core.plugins import schemas

FILE = dict(filename="x.png", encodingFormat="image/png", contentSize=1, sha256="ab")
TABLE = dict(name="t", columns=[dict(name="c", unit="meter")])

tmp = tempfile.mkdtemp()
problems = []
try:
    prefix = os.path.join(tmp, "rec")
    rec = IH5Record(prefix, "w")
    mc = MetadorContainer(rec)
    mc["d"] = [1, 2, 3]
    mc["d"].meta["core.file"] = FILE
    rec.commit_patch()

    # patch 1: first use of schema core.table ... but the patch is thrown away
    rec.create_patch()
    mc["e"] = [1]
    mc["e"].meta["core.table"] = TABLE
    rec.discard_patch()

    # after the discard nothing of core.table is in the record any more
    live = {r.name for r in mc.metador.schemas.keys()}
    if "core.table" in live:
        print("note: wrapper still reports core.table as used schema after discard_patch():", sorted(live))

    # patch 1 (second try): attach a core.table object again, commit
    rec.create_patch()
    mc["f"] = [1]
    try:
        mc["f"].meta["core.table"] = TABLE
    except Exception as e:  # a clean refusal would not violate the property
        print("attach after discard refused:", type(e).__name__, e)
    rec.commit_patch()
    rec.close()

    # freshly opened container must describe every stored object
    with MetadorContainer(IH5Record(prefix, "r")) as mc2:
        described = mc2.metador.schemas.keys()
        nodes = [mc2[n] for n in mc2.keys()]
        for node in nodes:
            for sname, stored in node.meta.items():
                ref = stored.schema
                if ref not in described:
                    problems.append(f"{node.name}: object of {sname} {ref.version} stored, but schema not in container.metador.schemas {sorted(r.name for r in described)}")
                    continue
                if mc2.metador.schemas[ref] != schemas.get(ref.name, ref.version).schema():
                    problems.append(f"{node.name}: embedded JSON Schema of {sname} differs")
                if mc2.metador.schemas.parent_path(ref) != schemas.parent_path(ref.name, ref.version):
                    problems.append(f"{node.name}: parent chain of {sname} differs")
                if mc2.metador.schemas.provider(ref) != schemas.provider(ref):
                    problems.append(f"{node.name}: provider of {sname} differs")
finally:
    shutil.rmtree(tmp, ignore_errors=True)

if problems:
    print("PROPERTY VIOLATED (container must embed schema/parents/provider for every stored object):")
    for p in problems:
        print("  -", p)
    sys.exit(1)
print("ok")
sys.exit(0)
