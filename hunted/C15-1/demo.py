import shim  # noqa: F401
import os, shutil, sys, tempfile
import h5py, numpy as np
from metador_core.container import MetadorContainer
from metador_core.container.interface import NodeAcl
from metador_core.ih5.container import IH5Record

problems = []
d = tempfile.mkdtemp()
try:
    for drv in ("h5py", "ih5"):
        if drv == "h5py":
            mc = MetadorContainer(h5py.File(os.path.join(d, "a.h5"), "w"))
        else:
            mc = MetadorContainer(IH5Record(os.path.join(d, "rec"), "w"))
        mc["g/ds"] = np.arange(5)
        mc["g/ds"].attrs["a"] = 7

        # --- read_only: group and dataset, navigation primitive `.file`
        for start in ("g", "g/ds"):
            ro = mc[start].restrict(read_only=True)
            try:
                f = ro.file
            except AttributeError:
                continue  # refusing is fine
            if not f.acl[NodeAcl.read_only]:
                problems.append(f"[{drv}] mc[{start!r}].restrict(read_only=True).file is NOT read_only: {f.acl}")
            try:
                f["g/ds"][0] = 99
                f["hacked"] = 1
                del f["g/ds"].attrs["a"]
            except Exception:
                pass
            if "hacked" in mc or mc["g/ds"][0] == 99 or "a" not in mc["g/ds"].attrs:
                problems.append(f"[{drv}] container was mutated through <read_only {start}>.file "
                                f"(hacked={'hacked' in mc}, ds[0]={mc['g/ds'][0]}, attrs={list(mc['g/ds'].attrs)})")
            # undo
            if "hacked" in mc:
                del mc["hacked"]
            mc["g/ds"][0] = 0
            mc["g/ds"].attrs["a"] = 7

        # --- skel_only: `.file` hands out dataset contents / attribute values
        sk = mc["g"].restrict(skel_only=True)
        try:
            val = sk.file["g/ds"][()]
            att = sk.file["g/ds"].attrs["a"]
            problems.append(f"[{drv}] skel_only node yields data {val!r} and attr {att!r} via .file")
        except AttributeError:
            pass
        mc.close()
finally:
    shutil.rmtree(d)

if problems:
    print("PROPERTY VIOLATED:")
    for p in problems:
        print(" -", p)
    sys.exit(1)
print("ok")
