import shim  # noqa: F401  (must be first)

import os
import shutil
import sys
import tempfile

import h5py
import numpy as np

from metador_core.ih5.container import IH5Record


def listing(node):
    out = []
    node.visit(out.append)
    return sorted(out)


def history(t, patch=lambda: None):
    """The same operations for h5py.File (reference) and IH5Record; returns outcome per step."""
    outcomes = []
    t["g/d"] = np.arange(3)
    t.create_group("h")
    patch()
    steps = {
        # `name=None` is the documented default of h5py's Group.copy (-> use the source's name)
        "copy(src, dest_group, name=None)": lambda: t.copy("g/d", t["h"], name=None),
        # h5py signature: copy(source, dest, name=None, ...) -> name may be passed positionally
        "copy(src, dest_group, 'd2')": lambda: t.copy(t["g/d"], t["h"], "d2"),
        "copy(src_group, dest_group, None)": lambda: t.copy(t["g"], t["h"], None),
    }
    for what, step in steps.items():
        try:
            step()
            outcomes.append((what, "ok"))
        except Exception as e:
            outcomes.append((what, f"{type(e).__name__}: {e}"))
    return outcomes, listing(t)


tmp = tempfile.mkdtemp()
try:
    with h5py.File(os.path.join(tmp, "plain.h5"), "w") as ref:
        exp = history(ref)
    rec = IH5Record(os.path.join(tmp, "rec"), "w")

    def patch():
        rec.commit_patch()
        rec.create_patch()

    got = history(rec, patch)
    rec.close()
finally:
    shutil.rmtree(tmp)

bad = False
for (what, e), (_, g) in zip(exp[0], got[0]):
    flag = "" if e == g else "   <-- differs"
    bad |= e != g
    print(f"{what}: single tree: {e} | IH5: {g}{flag}")
print("single tree:", exp[1])
print("IH5 record :", got[1])
if bad or exp[1] != got[1]:
    print("FAIL: valid copy operations fail on the IH5 record / resulting trees differ")
    sys.exit(1)
print("OK")
sys.exit(0)
