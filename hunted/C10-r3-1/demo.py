import shim  # noqa: F401  (must be first)
import json
import shutil
import sys
import tempfile
from pathlib import Path

from metador_core.ih5.container import IH5MFRecord, IH5Record

# Manifest extensions are lost (without anybody overriding them) as soon as one
# patch of the record was committed through the plain IH5Record class.
#
# The class docs say: "An IH5MFRecord is a valid IH5Record", "it MUST NOT be required
# to have manifest files for each ih5 patch" and "Additional information stored in the
# manifest is inherited to the manifest of successive patches until overridden."

EXTS = {"project": {"id": 42, "tags": ["x", "y"]}}

tmp = Path(tempfile.mkdtemp())
problems = []
try:
    rec_path = tmp / "rec"

    # patch 0: record with manifest + attached extension data
    with IH5MFRecord(rec_path, "w") as r:
        r["a"] = 1
        r.commit_patch(manifest_exts=EXTS)

    # patch 1: some tool updates the record with the plain driver (valid: "An
    # IH5MFRecord is a valid IH5Record (the manifest file then is simply ignored)")
    with IH5Record(rec_path, "r+") as r:
        r["b"] = 2

    # patch 2: back to the manifest-aware class, nobody overrides the extensions
    with IH5MFRecord(rec_path, "r+") as r:
        r["c"] = 3
        r.commit_patch()  # no manifest_exts passed -> should inherit
        in_memory = r.manifest.manifest_exts
        latest = r.ih5_files[-1]

    on_disk = json.loads(Path(f"{latest}mf.json").read_text())["manifest_exts"]
    if in_memory != EXTS:
        problems.append(f"manifest_exts after commit (in memory): {in_memory!r}")
    if on_disk != EXTS:
        problems.append(f"manifest_exts in latest manifest on disk: {on_disk!r}")

    # consequence for stubs: a stub of the latest manifest has lost them as well
    with IH5MFRecord.create_stub(tmp / "stub", Path(f"{latest}mf.json")) as stub:
        if stub.manifest.manifest_exts != EXTS:
            problems.append(f"manifest_exts of stub: {stub.manifest.manifest_exts!r}")
finally:
    shutil.rmtree(tmp, ignore_errors=True)

if problems:
    print("VIOLATION: manifest extensions did not persist although never overridden")
    print(f"  expected everywhere: {EXTS!r}")
    for p in problems:
        print("  " + p)
    sys.exit(1)
print("ok: extensions were inherited")
sys.exit(0)
