import shim  # noqa: F401  (must be first)
import os
import shutil
import sys
import tempfile

import h5py

from metador_core.container import MetadorContainer
from metador_core.ih5.container import IH5Record
from metador_core.plugins import schemas

File = schemas.get("core.file", (0, 1, 0))
Image = schemas.get("core.imagefile", (0, 1, 0))
Dir = schemas.get("core.dir", (0, 1, 0))


def fm(name):
    return File(filename=name, encodingFormat="text/plain", contentSize=3, sha256="a" * 64)


def im(name):
    return Image(filename=name, encodingFormat="image/png", contentSize=3,
                 sha256="b" * 64, width=3, height=4)


def snapshot(mc, expected):
    """Return list of complaints: every (path, schema, obj) must still be retrievable."""
    out = []
    for path, schema, obj in expected:
        try:
            got = mc[path].meta.get(schema)
        except Exception as e:  # noqa
            out.append(f"{path}: {schema} not retrievable: {type(e).__name__}: {e}")
            continue
        if got != obj:
            out.append(f"{path}: {schema} returned {got!r:.60} instead of the stored object")
    return out


bad = []
tmp = tempfile.mkdtemp()
try:
    for drv in ("h5py", "ih5"):
        if drv == "h5py":
            raw = h5py.File(os.path.join(tmp, "c.h5"), "w")
        else:
            raw = IH5Record(os.path.join(tmp, "c"), "w")
        with MetadorContainer(raw) as mc:
            g = mc.create_group("g")
            g["b"] = 5
            sub = g.create_group("sub")
            sub["c"] = 1
            mc["a"] = 7
            expected = [
                ("a", "core.file", fm("a")),
                ("g/b", "core.imagefile", im("b")),
                ("g/sub", "core.dir", Dir()),
                ("g/sub/c", "core.file", fm("c")),
            ]
            for path, schema, obj in expected:
                mc[path].meta[schema] = obj
            q_before = sorted(n.name for n in mc.metador.query("core.file"))

            # move a group to a place below itself: cannot work, must be refused
            try:
                mc.move("g", "g/sub/g")
                bad.append(f"[{drv}] move of a group into itself did not raise")
                continue
            except Exception as e:  # the caller catches the error and goes on
                err = f"{type(e).__name__}: {e}"

            # the operation failed -> nothing was deleted, everything must still be there
            problems = snapshot(mc, expected)
            q_after = sorted(n.name for n in mc.metador.query("core.file"))
            if q_after != q_before:
                problems.append(f"query('core.file') was {q_before}, now {q_after}")
            # the TOC must not point to objects that are gone
            links = mc.__wrapped__.get("/metador_container/links")
            if links is not None:
                for sgrp in links.values():
                    for uuid, link in sgrp.items():
                        target = link[()].decode("utf-8")
                        if target not in mc.__wrapped__:
                            problems.append(f"TOC link {uuid} -> {target} dangles")
            if problems:
                bad.append(f"[{drv}] mc.move('g', 'g/sub/g') raised {err}, and afterwards:\n    "
                           + "\n    ".join(problems))
finally:
    shutil.rmtree(tmp, ignore_errors=True)

if bad:
    print("VIOLATION: a failed move destroyed nodes with their metadata (never deleted by the caller)")
    print("\n".join(bad))
    sys.exit(1)
print("ok: failed move left all metadata in place")
sys.exit(0)
