import shim  # noqa: F401  (must be first)

"""A schema plugin that is provided by a package whose distribution name is not
all-lowercase (here: 'Hunt_Schemas') cannot be described in a container:
attaching an object raises TypeError half way, the object stays stored without
package info, and the container cannot be opened any more."""
import os
import shutil
import sys
import tempfile
import textwrap

# ---- "install" a package providing one schema plugin (before metador_core is imported)
site = tempfile.mkdtemp(prefix="site")
with open(os.path.join(site, "huntschemas_mod.py"), "w") as f:
    f.write(textwrap.dedent('''
        from metador_core.schema import MetadataSchema
        class Thing(MetadataSchema):
            class Plugin:
                name = "hunt.thing"
                version = (0, 1, 0)
            x: int
    '''))
di = os.path.join(site, "Hunt_Schemas-1.0.0.dist-info")
os.makedirs(di)
with open(os.path.join(di, "METADATA"), "w") as f:
    f.write("Metadata-Version: 2.1\nName: Hunt_Schemas\nVersion: 1.0.0\n")
with open(os.path.join(di, "entry_points.txt"), "w") as f:
    f.write("[metador_schema]\nhunt.thing__0.1.0 = huntschemas_mod:Thing\n")
sys.path.insert(0, site)

import h5py  # noqa: E402

from metador_core.container import MetadorContainer  # noqa: E402
from metador_core.plugins import schemas  # noqa: E402

problems = []
tmp = tempfile.mkdtemp()
try:
    ref = schemas.PluginRef(name="hunt.thing", version=(0, 1, 0))
    env_pkg = schemas.provider(ref)  # the plugin system is fine with the package
    print("plugin system: hunt.thing 0.1.0 is provided by", env_pkg.name, env_pkg.version)

    path = os.path.join(tmp, "c.h5")
    mc = MetadorContainer(h5py.File(path, "w"))
    mc["d"] = [1, 2, 3]
    try:
        mc["d"].meta["hunt.thing"] = dict(x=1)
    except Exception as e:  # caller catches the error and goes on
        print("attach raised:", repr(e))

    def check(mc, label):
        for name, obj in mc["d"].meta.items():
            S = mc.metador.schemas
            if obj.schema not in S:
                problems.append(f"{label}: stored object {name}: schema not described in container")
                continue
            try:
                pkg = S.provider(obj.schema)
            except KeyError as e:
                problems.append(f"{label}: stored object {name}: no providing package stored ({e})")
                continue
            if pkg != env_pkg:
                problems.append(f"{label}: stored package info differs from plugin system")

    check(mc, "live")
    mc.close()
    try:
        mc = MetadorContainer(h5py.File(path, "r"))
        check(mc, "reopened")
        mc.close()
    except Exception as e:
        problems.append(f"container cannot be opened any more: {e!r}")
finally:
    shutil.rmtree(tmp, ignore_errors=True)
    shutil.rmtree(site, ignore_errors=True)

if problems:
    print("PROPERTY VIOLATED:")
    for p in problems:
        print("  -", p)
    sys.exit(1)
print("ok")
