import shim  # noqa
"""A scalar of a one-byte COMPOUND type whose byte is 0x7f - e.g. a record with a single uint8
field equal to 127 - is taken for the IH5 deletion marker (which is documented as the OPAQUE
value np.void(b'\\x7f') only) and refused, while plain HDF5 stores it."""
import os, shutil, sys, tempfile
import h5py
import numpy as np
from metador_core.container import MetadorContainer
from metador_core.ih5.container import IH5MFRecord, IH5Record

tmp = tempfile.mkdtemp()
FLAG = np.dtype([("level", "u1")])
CHAR = np.dtype([("c", "S1")])


def open_raw(kind):
    if kind == "h5py.File":
        return h5py.File(os.path.join(tmp, "plain.h5"), "w")
    cls = IH5Record if kind == "IH5Record" else IH5MFRecord
    return cls(os.path.join(tmp, kind), "w")


def write_field(c):
    c.create_dataset("w", shape=(), dtype=FLAG)
    c["w"]["level"] = 127


STEPS = [
    ("c['a'] = np.array((126,), dtype=[('level','u1')])   (control)", lambda c: c.__setitem__("a", np.array((126,), dtype=FLAG))),
    ("c['b'] = np.array((127,), dtype=[('level','u1')])", lambda c: c.__setitem__("b", np.array((127,), dtype=FLAG))),
    ("c['s'] = np.array((b'\\x7f',), dtype=[('c','S1')])[()]", lambda c: c.__setitem__("s", np.array((b"\x7f",), dtype=CHAR)[()])),
    ("c.attrs['k'] = np.array((127,), dtype=[('level','u1')])", lambda c: c.attrs.__setitem__("k", np.array((127,), dtype=FLAG))),
    ("c.create_dataset('w', shape=(), dtype=FLAG); c['w']['level'] = 127", write_field),
]


def state(c):
    ret = {k: (c[k][()].tolist() if k in c else None) for k in ("a", "b", "s", "w")}
    ret["@k"] = c.attrs["k"].tolist() if "k" in c.attrs else None
    return ret


def run(kind):
    raw = open_raw(kind)
    c = MetadorContainer(raw)
    out = []
    for label, step in STEPS:
        try:
            step(c)
            out.append("ok")
        except Exception as e:  # noqa
            out.append(f"FAILS ({type(e).__name__}: {e})")
    st = state(c)
    raw.close()
    return out, st


try:
    ref, ref_st = run("h5py.File")
    bad = False
    for kind in ("IH5Record", "IH5MFRecord"):
        got, got_st = run(kind)
        for (label, _), a, b in zip(STEPS, ref, got):
            if a != b:
                bad = True
                print(f"[{kind}] {label}:\n     h5py.File -> {a}\n     {kind} -> {b}")
        if got_st != ref_st:
            bad = True
            print(f"[{kind}] resulting data differ:\n     h5py.File -> {ref_st}\n     {kind} -> {got_st}")
    if bad:
        print("VIOLATION: a compound value that is not the documented opaque deletion marker is refused on IH5 only")
        sys.exit(1)
    print("ok: same behaviour on all drivers")
    sys.exit(0)
finally:
    shutil.rmtree(tmp, ignore_errors=True)
