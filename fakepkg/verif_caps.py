"""Third harness distribution 'Verif_Caps' (distribution name with capitals and underscore)."""
from metador_core.schema import MetadataSchema
from metador_core.schema.types import NonEmptyStr


class CapsThing(MetadataSchema):
    class Plugin:
        name = "verifcaps.thing"
        version = (1, 0, 0)

    tag: NonEmptyStr
