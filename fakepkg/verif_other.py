"""Second harness distribution 'verif_other' (a second provider package)."""
from typing import Optional

from metador_core.schema import MetadataSchema
from metador_core.schema.types import Bool, NonEmptyStr


class Thing(MetadataSchema):
    class Plugin:
        name = "verifother.thing"
        version = (1, 0, 0)

    name: NonEmptyStr
    flag: Optional[Bool]
