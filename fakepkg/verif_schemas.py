"""Harness schema distribution 'verif_schemas' (discovered through real entry points, see DESIGN §2)."""
from typing import List, Optional, Set

from metador_core.schema import MetadataSchema
from metador_core.schema.decorators import add_const_fields
from metador_core.schema.types import Duration, Int, NonEmptyStr, PintQuantity


class Base100(MetadataSchema):
    """verif.base 1.0.0"""

    class Plugin:
        name = "verif.base"
        version = (1, 0, 0)

    title: NonEmptyStr


class Base110(MetadataSchema):
    """verif.base 1.1.0: minor release, accepts strictly more (optional note)."""

    class Plugin:
        name = "verif.base"
        version = (1, 1, 0)

    title: NonEmptyStr
    note: Optional[NonEmptyStr]


class Base200(MetadataSchema):
    """verif.base 2.0.0: major release (title renamed to label)."""

    class Plugin:
        name = "verif.base"
        version = (2, 0, 0)

    label: NonEmptyStr


class Alpha(Base110):
    """verif.alpha: another child of verif.base 1.1.0 whose name sorts BEFORE its parent's."""

    class Plugin:
        name = "verif.alpha"
        version = (1, 0, 0)

    rank: Optional[Int]


class Mid(Base110):
    """verif.mid: child of verif.base 1.1.0."""

    class Plugin:
        name = "verif.mid"
        version = (1, 0, 0)

    count: Int
    tags: Set[NonEmptyStr] = set()


@add_const_fields({"@type": "VerifLeaf", "marker": 42})
class Leaf(Mid):
    """verif.leaf: grandchild, with custom-parser fields and constants."""

    class Plugin:
        name = "verif.leaf"
        version = (0, 3, 1)

    dur: Optional[Duration]
    qty: Optional[PintQuantity]
    parts: List[NonEmptyStr] = []


class Aux(MetadataSchema):
    """verif.aux: auxiliary schema (must not be attachable)."""

    class Plugin:
        name = "verif.aux"
        version = (1, 0, 0)
        auxiliary = True

    x: Int


# A family whose middle schema exists in two versions with DIFFERENT parents: the parent chain of a schema is the
# chain of the classes it really derives from, not the one of the newest compatible version of each ancestor.
class Root010(MetadataSchema):
    """verif.root 0.1.0"""

    class Plugin:
        name = "verif.root"
        version = (0, 1, 0)

    rootname: Optional[NonEmptyStr]


class Root020(MetadataSchema):
    """verif.root 0.2.0"""

    class Plugin:
        name = "verif.root"
        version = (0, 2, 0)

    rootname: Optional[NonEmptyStr]
    rootnote: Optional[NonEmptyStr]


class Fam010(Root010):
    """verif.fam 0.1.0 (child of verif.root 0.1.0)"""

    class Plugin:
        name = "verif.fam"
        version = (0, 1, 0)

    fam: Optional[Int]


class Fam020(Root020):
    """verif.fam 0.2.0 (child of verif.root 0.2.0)"""

    class Plugin:
        name = "verif.fam"
        version = (0, 2, 0)

    fam: Optional[Int]
    famnote: Optional[NonEmptyStr]


class FamKid(Fam010):
    """verif.famkid 0.1.0 (child of verif.fam 0.1.0)"""

    class Plugin:
        name = "verif.famkid"
        version = (0, 1, 0)

    kid: NonEmptyStr
